(* C19 — proofs about Model/Health.v *)
From Coq Require Import List ZArith Bool Lia.
From FRP Require Import Model.Health.
Import ListNotations.
Open Scope Z_scope.

Definition hm_full (max : Z) : hm_cfg := {| hm_max := max; hm_hasN := true; hm_hasF := true |}.

Lemma hm_run_err_app : forall c h1 h2 s,
  hm_run_err c s (h1 ++ h2) =
  let '(s1, e1) := hm_run_err c s h1 in
  let '(s2, e2) := hm_run_err c s1 h2 in (s2, e1 ++ e2).
Proof.
  intros c h1; induction h1 as [|e r IH]; intros h2 s; simpl.
  - destruct (hm_run_err c s h2); reflexivity.
  - destruct (hm_step_err c s e) as [s1 ev].
    rewrite IH. destruct (hm_run_err c s1 r) as [s2 evs].
    destruct (hm_run_err c s2 h2); reflexivity.
Qed.

Lemma hm_run_err_snoc : forall c h e s,
  hm_run_err c s (h ++ [e]) =
  let '(s1, e1) := hm_run_err c s h in
  let '(s2, ev) := hm_step_err c s1 e in (s2, e1 ++ [ev]).
Proof.
  intros. rewrite hm_run_err_app. destruct (hm_run_err c s h) as [s1 e1]. simpl.
  destruct (hm_step_err c s1 e); reflexivity.
Qed.

Lemma hm_run_err_length : forall c h s, length (snd (hm_run_err c s h)) = length h.
Proof.
  intros c h; induction h as [|e r IH]; intros s; simpl; auto.
  destruct (hm_step_err c s e) as [s1 ev]. specialize (IH s1).
  destruct (hm_run_err c s1 r); simpl in *; congruence.
Qed.

Lemma hm_trailing_from_snoc : forall h acc e,
  hm_trailing_from acc (h ++ [e]) = if e then hm_trailing_from acc h + 1 else 0.
Proof.
  induction h as [|x r IH]; intros acc e; simpl.
  - destruct e; reflexivity.
  - destruct x; apply IH.
Qed.

Lemma hm_trailing_snoc : forall h e, hm_trailing (h ++ [e]) = if e then hm_trailing h + 1 else 0.
Proof. intros; apply hm_trailing_from_snoc. Qed.

Lemma hm_trailing_from_nonneg : forall h acc, 0 <= acc -> 0 <= hm_trailing_from acc h.
Proof. induction h as [|x r IH]; intros acc Ha; simpl; auto. destruct x; apply IH; lia. Qed.

Lemma hm_trailing_nonneg : forall h, 0 <= hm_trailing h.
Proof. intros; apply hm_trailing_from_nonneg; lia. Qed.

Lemma hm_has_success_snoc : forall h e, hm_has_success (h ++ [e]) = hm_has_success h || negb e.
Proof. intros. unfold hm_has_success. rewrite existsb_app. simpl. rewrite orb_false_r. reflexivity. Qed.

(* normal form of one step when both callbacks are present *)
Lemma hm_step_full : forall max s e,
  hm_step_err (hm_full max) s e =
  if e then
    (if hm_ok s && (hm_failed s + 1 >=? max)
     then ({| hm_failed := hm_failed s + 1; hm_ok := false |}, [HMFailed])
     else ({| hm_failed := hm_failed s + 1; hm_ok := hm_ok s |}, []))
  else
    (if hm_ok s then ({| hm_failed := 0; hm_ok := true |}, [])
     else ({| hm_failed := 0; hm_ok := true |}, [HMNormal])).
Proof.
  intros max s e. unfold hm_step_err. destruct e; simpl.
  - rewrite andb_true_r. reflexivity.
  - rewrite andb_true_r. destruct (hm_ok s) eqn:E; simpl; reflexivity.
Qed.

(* the state after any history is the specification's verdict and the trailing failure count *)
Lemma hm_state_spec : forall max h, 1 <= max ->
  let s := fst (hm_run_err (hm_full max) hm_init h) in
  hm_failed s = hm_trailing h /\ hm_ok s = hm_spec_ok max h.
Proof.
  intros max h Hm. induction h as [|e h IH] using rev_ind.
  - simpl. unfold hm_spec_ok. simpl. split; reflexivity.
  - cbv zeta in *. rewrite hm_run_err_snoc.
    destruct (hm_run_err (hm_full max) hm_init h) as [s1 e1]. simpl in IH. destruct IH as [IHf IHo].
    unfold hm_spec_ok in *. rewrite hm_trailing_snoc, hm_has_success_snoc.
    pose proof (hm_trailing_nonneg h) as Hnn.
    rewrite hm_step_full. destruct e; simpl.
    + (* failed probe *)
      rewrite orb_false_r.
      destruct (hm_ok s1) eqn:Hok; simpl.
      * symmetry in IHo. apply andb_true_iff in IHo. destruct IHo as [Hs Ht].
        rewrite Hs. simpl. apply Z.ltb_lt in Ht.
        destruct (hm_failed s1 + 1 >=? max) eqn:Hge; simpl; (split; [lia|]).
        -- symmetry. apply Z.ltb_ge. apply Z.geb_le in Hge. lia.
        -- symmetry. apply Z.ltb_lt.
           destruct (Z.ltb_spec (hm_trailing h + 1) max); auto.
           assert (hm_failed s1 + 1 >=? max = true) by (apply Z.geb_le; lia). congruence.
      * split; [lia|].
        destruct (hm_has_success h); simpl in *; auto.
        symmetry. apply Z.ltb_ge. symmetry in IHo. apply Z.ltb_ge in IHo. lia.
    + (* success *)
      rewrite orb_true_r. simpl.
      assert (0 <? max = true) as -> by (apply Z.ltb_lt; lia).
      destruct (hm_ok s1); simpl; split; reflexivity.
Qed.

(* what one step fires, in terms of the verdict before it *)
Lemma hm_step_events : forall max s e,
  snd (hm_step_err (hm_full max) s e) =
  if e then (if hm_ok s && (hm_failed s + 1 >=? max) then [HMFailed] else [])
  else (if hm_ok s then [] else [HMNormal]).
Proof.
  intros. rewrite hm_step_full. destruct e.
  - destruct (hm_ok s && (hm_failed s + 1 >=? max)); reflexivity.
  - destruct (hm_ok s); reflexivity.
Qed.

(* declarative reading of "n failed probes in a row since a success" *)
Lemma hm_tail_shape : forall h n,
  (hm_has_success h = true /\ hm_trailing h = n) <->
  (exists pre fs, h = pre ++ false :: fs /\ Forall (fun e => e = true) fs /\ Z.of_nat (length fs) = n).
Proof.
  intros h. induction h as [|e h IH] using rev_ind; intros n.
  - split.
    + intros [H _]. discriminate.
    + intros (pre & fs & H & _). destruct pre; discriminate.
  - rewrite hm_has_success_snoc, hm_trailing_snoc. split.
    + intros [Hs Ht]. destruct e; simpl in *.
      * rewrite orb_false_r in Hs.
        destruct (proj1 (IH (n - 1))) as (pre & fs & He & Hall & Hlen); [split; [assumption|lia]|].
        exists pre, (fs ++ [true]). repeat split.
        -- rewrite He. rewrite <- app_assoc. reflexivity.
        -- apply Forall_app; split; auto.
        -- rewrite app_length. simpl. lia.
      * exists h, []. repeat split; auto; simpl; lia.
    + intros (pre & fs & He & Hall & Hlen).
      destruct fs as [|f0 fs0].
      * apply app_inj_tail in He. destruct He as [_ He]. subst e. simpl. split; [apply orb_true_r|]. simpl in Hlen. lia.
      * destruct (@exists_last _ (f0 :: fs0)) as (fs' & f & Hfs); [discriminate|].
        rewrite Hfs in *. clear Hfs f0 fs0.
        change (pre ++ false :: fs' ++ [f]) with (pre ++ (false :: fs') ++ [f]) in He.
        rewrite app_assoc in He. apply app_inj_tail in He. destruct He as [Hh He]. subst f.
        apply Forall_app in Hall. destruct Hall as [Hall Hl]. inversion Hl as [|? ? Hetrue _]; subst e.
        simpl. rewrite orb_false_r.
        rewrite app_length in Hlen. simpl in Hlen.
        destruct (proj2 (IH (n - 1))) as [Hs Ht].
        { exists pre, fs'. repeat split; auto. lia. }
        split; [assumption|lia].
Qed.

Definition hm_errs (k : hm_kind) (h : list hm_probe) : list bool := map (hm_probe_err k) h.

Lemma hm_run_state : forall k c h, fst (hm_run k c h) = fst (hm_run_err c hm_init (hm_errs k h)).
Proof. reflexivity. Qed.

(* ---- the clauses of the property ---- *)

(* verdict after every history = specification *)
Lemma health_verdict : forall k max h, 1 <= max ->
  hm_ok (fst (hm_run k (hm_full max) h)) = hm_spec_ok max (hm_errs k h).
Proof. intros. apply (hm_state_spec max (hm_errs k h) H). Qed.

(* statusFailedFn fires at a probe iff that probe is the max-th failed one in a row after a success *)
Lemma withdrawn_exactly : forall k max h p, 1 <= max ->
  In HMFailed (snd (hm_step k (hm_full max) (fst (hm_run k (hm_full max) h)) p)) <->
  exists pre fs, hm_errs k (h ++ [p]) = pre ++ false :: fs /\
                 Forall (fun e => e = true) fs /\ Z.of_nat (length fs) = max.
Proof.
  intros k max h p Hm. unfold hm_step. rewrite hm_step_events.
  destruct (hm_state_spec max (hm_errs k h) Hm) as [Hf Ho]. rewrite <- hm_run_state in Hf, Ho.
  rewrite <- hm_tail_shape. unfold hm_errs. rewrite map_app. simpl.
  rewrite hm_has_success_snoc, hm_trailing_snoc.
  fold (hm_errs k h). pose proof (hm_trailing_nonneg (hm_errs k h)) as Hnn.
  destruct (hm_probe_err k p); simpl.
  - rewrite orb_false_r. rewrite Ho, Hf. unfold hm_spec_ok.
    destruct (hm_has_success (hm_errs k h)); simpl.
    + destruct (hm_trailing (hm_errs k h) <? max) eqn:Hlt; simpl.
      * destruct (hm_trailing (hm_errs k h) + 1 >=? max) eqn:Hge; simpl.
        -- split; [intros _; split; [reflexivity|lia]|intros _; left; reflexivity].
        -- split; [intros []|intros [_ He]; lia].
      * apply Z.ltb_ge in Hlt. split; [intros []|intros [_ He]; lia].
    + split; [intros []|intros [He _]; discriminate].
  - destruct (hm_ok (fst (hm_run k (hm_full max) h))); simpl.
    + split; [intros []|intros [_ He]; lia].
    + split; [intros [He|[]]; discriminate|intros [_ He]; lia].
Qed.

Lemma hm_skipn_exact : forall (A : Type) (a b : list A) n, n = length a -> skipn n (a ++ b) = b.
Proof. intros A a; induction a as [|x a IH]; intros b n Hn; subst n; simpl; auto. Qed.

Lemma hm_fail_run : forall max fs s0,
  hm_ok s0 = true ->
  Forall (fun e => e = true) fs ->
  hm_failed s0 + Z.of_nat (length fs) < max ->
  hm_run_err (hm_full max) s0 fs =
  ({| hm_failed := hm_failed s0 + Z.of_nat (length fs); hm_ok := true |}, repeat [] (length fs)).
Proof.
  intros max fs. induction fs as [|f fs IH]; intros s0 Hok Hall Hlt.
  - simpl. destruct s0 as [f0 o0]. simpl in *. subst o0. f_equal. f_equal. lia.
  - inversion Hall as [|? ? Hf Hall']; subst.
    cbn [hm_run_err]. rewrite hm_step_full. rewrite Hok. cbn [andb length] in *.
    assert (hm_failed s0 + 1 >=? max = false) as Hge.
    { destruct (hm_failed s0 + 1 >=? max) eqn:E; auto. apply Z.geb_le in E. lia. }
    rewrite Hge. rewrite IH; auto; cbn [hm_failed hm_ok]; [|lia].
    cbn [repeat]. f_equal. f_equal. lia.
Qed.

(* after a success, fewer than max failed probes fire nothing and leave the verdict healthy:
   the count restarts whatever came before the success *)
Lemma success_restarts : forall k max h s fs, 1 <= max ->
  hm_probe_err k s = false ->
  Forall (fun p => hm_probe_err k p = true) fs ->
  Z.of_nat (length fs) < max ->
  let r := hm_run k (hm_full max) (h ++ s :: fs) in
  hm_ok (fst r) = true /\ hm_failed (fst r) = Z.of_nat (length fs) /\
  skipn (S (length h)) (snd r) = repeat [] (length fs).
Proof.
  intros k max h s fs Hm Hs Hfs Hlen. cbv zeta. unfold hm_run.
  rewrite map_app. cbn [map]. rewrite Hs. rewrite hm_run_err_app.
  destruct (hm_run_err (hm_full max) hm_init (map (hm_probe_err k) h)) as [s1 e1] eqn:E1.
  pose proof (hm_run_err_length (hm_full max) (map (hm_probe_err k) h) hm_init) as Hl.
  rewrite E1 in Hl. cbn [snd] in Hl. rewrite map_length in Hl.
  cbn [hm_run_err]. rewrite hm_step_full.
  set (s2 := {| hm_failed := 0; hm_ok := true |}).
  assert (Hrun : hm_run_err (hm_full max) s2 (map (hm_probe_err k) fs) =
                 ({| hm_failed := 0 + Z.of_nat (length (map (hm_probe_err k) fs)); hm_ok := true |},
                  repeat [] (length (map (hm_probe_err k) fs)))).
  { apply (hm_fail_run max (map (hm_probe_err k) fs) s2); auto.
    - apply Forall_forall. intros x Hx. apply in_map_iff in Hx. destruct Hx as (p & Hp & Hin).
      rewrite Forall_forall in Hfs. rewrite <- Hp. auto.
    - rewrite map_length. subst s2. cbn [hm_failed]. lia. }
  rewrite map_length in Hrun.
  destruct (hm_ok s1); rewrite Hrun; cbn [fst snd hm_ok hm_failed]; (split; [reflexivity|split; [lia|]]);
    rewrite <- Hl;
    match goal with |- skipn _ (e1 ++ ?x :: ?r) = _ =>
      change (e1 ++ x :: r) with (e1 ++ [x] ++ r); rewrite app_assoc;
      apply hm_skipn_exact; rewrite app_length; simpl; lia
    end.
Qed.

(* no callback at all, verdict unhealthy, while every probe so far failed *)
Lemma not_before_first_success : forall k max h, 1 <= max ->
  Forall (fun p => hm_probe_err k p = true) h ->
  let r := hm_run k (hm_full max) h in
  hm_ok (fst r) = false /\ Forall (fun ev => ev = []) (snd r).
Proof.
  intros k max h Hm Hall. induction h as [|p h IH] using rev_ind.
  - simpl. split; auto.
  - apply Forall_app in Hall. destruct Hall as [Hh Hp]. inversion Hp as [|? ? Hp1 _]; subst.
    destruct (IH Hh) as [IHo IHe]. cbv zeta in *. unfold hm_run in *.
    rewrite map_app. simpl. rewrite hm_run_err_snoc.
    destruct (hm_run_err (hm_full max) hm_init (map (hm_probe_err k) h)) as [s1 e1]. simpl in *.
    rewrite Hp1. unfold hm_step_err. simpl. rewrite IHo. simpl. split; auto.
    apply Forall_app. split; auto.
Qed.

(* from an unhealthy verdict the next success fires statusNormalFn, at once *)
Lemma registered_again : forall k max h p, 1 <= max ->
  hm_ok (fst (hm_run k (hm_full max) h)) = false ->
  hm_probe_err k p = false ->
  let r := hm_step k (hm_full max) (fst (hm_run k (hm_full max) h)) p in
  snd r = [HMNormal] /\ hm_ok (fst r) = true /\ hm_failed (fst r) = 0.
Proof.
  intros k max h p Hm Ho Hp. cbv zeta. unfold hm_step. rewrite Hp. unfold hm_step_err. simpl.
  rewrite Ho. simpl. repeat split.
Qed.

(* which probe outcomes count as failed *)
Lemma failed_outcomes :
  (forall k, hm_probe_err k HPTimeout = true) /\
  (forall k, hm_probe_err k HPRefuse = true) /\
  (forall c, hm_probe_err HKHttp (HPStatus c) = false <-> 200 <= c <= 299) /\
  hm_probe_err HKTcp HPAccept = false.
Proof.
  split; [intros k; destruct k; reflexivity|split; [intros k; destruct k; reflexivity|split; [intros c; split|reflexivity]]].
  - simpl. intros H. apply negb_false_iff in H. apply Z.eqb_eq in H.
    pose proof (Z.mod_pos_bound c 100). pose proof (Z.div_mod c 100). lia.
  - simpl. intros H. apply negb_false_iff. apply Z.eqb_eq.
    symmetry. apply (Z.div_unique c 100 2 (c - 200)); lia.
Qed.
