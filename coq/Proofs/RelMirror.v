(* C10 — the helpers Model/SrvRes.v mirrors, as their effect digests were when the model was written
   (format: Model/RelTypes.v; produced by translator unit t10rel).  Properties/C10.v proves, reflectively on
   every run, that TODAY's digests (gen/GenRelease.v, regenerated from the Go sources) are these.  A changed
   table write, call, defer or guard in one of them breaks that obligation: the model function named beside
   it has to be looked at again, and this pin updated only together with the model.

     Routers.Add / Del                      res_add / res_rm on SRoute keys: Add refuses an existing (domain, location, user)
                                            and stores; Del rewrites ONLY the slice of (domain, user) without the location,
                                            no entry of another user or domain is written or deleted
     Muxer.Listen / Listener.Close          res_add / res_rm of https and tcpmux routes (routes_run, route_release)
     HTTPReverseProxy.Register / UnRegister res_add / res_rm of http routes
     visitor.Manager.Listen / CloseListener res_add / res_rm (SVis name): delete by name, called only by the owner
     nathole ListenClient / CloseClient     res_add / res_rm (SNat name)
     BaseProxy.Close, XxxProxy.Close        px_close: which helper calls a Close consists of, in order, synchronously
     STCPProxy.Run / SUDPProxy.Run          px_run: no clean-up on the error path (the only error is "the name is held by
                                            somebody else": a Close there would delete the incumbent's entry by name)
     proxy.Manager.Add / Del                nm_set after a presence test / nm_del
     wrapQuicStream.Close                   the control connection of a QUIC client: Close ends BOTH directions (CancelRead, then
                                            Stream.Close), so that the dispatcher's read fails and the teardown (y_end) runs
     CloseNotifyConn.Close, StatsConn.Close CwOnce of Model/ConnWrap.v
     ProxyBaseConfig.UnmarshalFromMsg       the configured name IS the wire name: the four names RegisterProxy, CloseProxy and
                                            the teardown use (wire name for Exist / Add / the ctl.proxies lookup, pxy.GetName()
                                            for the ctl.proxies insert and Del) are one string in the model *)
From FRP Require Import Model.RelTypes.
Open Scope string_scope.

Definition rel_pinned : list (string * list ef) := [
  ("pkg/util/vhost/router.go:Routers.Add", [
     Ef "local" ["$0"; "="; "strings.ToLower($0)"];
     Ef "call" ["$recv.mutex.Lock"];
     Ef "defer" [];
     Ef "call" ["$recv.mutex.Unlock"];
     Ef "end" [];
     Ef "local" ["$l0"; ":="; "$recv.exist($0, $1, $2)#1"];
     Ef "if" ["$l0"];
     Ef "ret" ["ErrRouterConfigConflict"];
     Ef "end" [];
     Ef "local" ["$l1"; ":="; "$recv.indexByDomain[$0]#0"];
     Ef "local" ["$l2"; ":="; "$recv.indexByDomain[$0]#1"];
     Ef "if" ["!$l2"];
     Ef "local" ["$l1"; "="; "make(map[string][]*Router)"];
     Ef "end" [];
     Ef "local" ["$l3"; ":="; "$l1[$2]#0"];
     Ef "local" ["$l2"; ":="; "$l1[$2]#1"];
     Ef "if" ["!$l2"];
     Ef "local" ["$l3"; "="; "make([]*Router, 0, 1)"];
     Ef "end" [];
     Ef "local" ["$l4"; ":="; "&Router{$0: $0, $1: $1, $2: $2, $3: $3}"];
     Ef "local" ["$l3"; "="; "append($l3, $l4)"];
     Ef "call" ["slices.SortFunc"; "$l3"; "func"];
     Ef "func" [];
     Ef "ret" ["-cmp.Compare(a.location, b.location)"];
     Ef "end" [];
     Ef "store" ["$l1"; "$2"; "$l3"];
     Ef "store" ["$recv.indexByDomain"; "$0"; "$l1"];
     Ef "ret" ["nil"]
  ]);
  ("pkg/util/vhost/router.go:Routers.Del", [
     Ef "local" ["$0"; "="; "strings.ToLower($0)"];
     Ef "call" ["$recv.mutex.Lock"];
     Ef "defer" [];
     Ef "call" ["$recv.mutex.Unlock"];
     Ef "end" [];
     Ef "local" ["$l0"; ":="; "$recv.indexByDomain[$0]#0"];
     Ef "local" ["$l1"; ":="; "$recv.indexByDomain[$0]#1"];
     Ef "if" ["!$l1"];
     Ef "ret" [];
     Ef "end" [];
     Ef "local" ["$l2"; ":="; "$l0[$2]#0"];
     Ef "local" ["$l1"; ":="; "$l0[$2]#1"];
     Ef "if" ["!$l1"];
     Ef "ret" [];
     Ef "end" [];
     Ef "local" ["$l3"; ":="; "make([]*Router, 0)"];
     Ef "loop" ["range"; "$l2"; "_"; "$l4"];
     Ef "if" ["$l4.location != $1"];
     Ef "local" ["$l3"; "="; "append($l3, $l4)"];
     Ef "end" [];
     Ef "end" [];
     Ef "store" ["$l0"; "$2"; "$l3"]
  ]);
  ("pkg/util/vhost/vhost.go:Muxer.Listen", [
     Ef "local" ["$r0"; "="; "&Listener{name: $1.Domain, location: $1.Location, routeByHTTPUser: $1.RouteByHTTPUser, rewriteHost: $1.RewriteHost, username: $1.Username, password: $1.Password, mux: $recv, accept: make(chan net.Conn), $0: $0}"];
     Ef "local" ["$r1"; "="; "$recv.registryRouter.Add($1.Domain, $1.Location, $1.RouteByHTTPUser, $r0)"];
     Ef "if" ["$r1 != nil"];
     Ef "ret" [];
     Ef "end" [];
     Ef "ret" ["$r0"; "nil"]
  ]);
  ("pkg/util/vhost/vhost.go:Listener.Close", [
     Ef "call" ["$recv.mux.registryRouter.Del"; "$recv.name"; "$recv.location"; "$recv.routeByHTTPUser"];
     Ef "call" ["close"; "$recv.accept"];
     Ef "ret" ["nil"]
  ]);
  ("pkg/util/vhost/http.go:HTTPReverseProxy.Register", [
     Ef "assign" ["$0.id"; "="; "atomic.AddUint64(&$recv.registerSeq, 1)"];
     Ef "local" ["$l0"; ":="; "$recv.vhostRouter.Add($0.Domain, $0.Location, $0.RouteByHTTPUser, &$0)"];
     Ef "if" ["$l0 != nil"];
     Ef "ret" ["$l0"];
     Ef "end" [];
     Ef "ret" ["nil"]
  ]);
  ("pkg/util/vhost/http.go:HTTPReverseProxy.UnRegister", [
     Ef "call" ["$recv.vhostRouter.Del"; "$0.Domain"; "$0.Location"; "$0.RouteByHTTPUser"];
     Ef "call" ["$recv.transport.CloseIdleConnections"]
  ]);
  ("server/visitor/visitor.go:Manager.Listen", [
     Ef "call" ["$recv.mu.Lock"];
     Ef "defer" [];
     Ef "call" ["$recv.mu.Unlock"];
     Ef "end" [];
     Ef "local" ["$l0"; ":="; "$recv.listeners[$0]#1"];
     Ef "if" ["$l0"];
     Ef "ret" ["nil"; "fmt.Errorf(""custom listener for [%s] is repeated"", $0)"];
     Ef "end" [];
     Ef "local" ["$l1"; ":="; "netpkg.NewInternalListener()"];
     Ef "store" ["$recv.listeners"; "$0"; "&listenerBundle{$l1: $l1, $1: $1, $2: $2}"];
     Ef "ret" ["$l1"; "nil"]
  ]);
  ("server/visitor/visitor.go:Manager.CloseListener", [
     Ef "call" ["$recv.mu.Lock"];
     Ef "defer" [];
     Ef "call" ["$recv.mu.Unlock"];
     Ef "end" [];
     Ef "delete" ["$recv.listeners"; "$0"]
  ]);
  ("pkg/nathole/controller.go:Controller.ListenClient", [
     Ef "local" ["$l0"; ":="; "&ClientCfg{$0: $0, $1: $1, $2: $2, sidCh: make(chan string)}"];
     Ef "call" ["$recv.mu.Lock"];
     Ef "defer" [];
     Ef "call" ["$recv.mu.Unlock"];
     Ef "end" [];
     Ef "local" ["$l1"; ":="; "$recv.clientCfgs[$0]#1"];
     Ef "if" ["$l1"];
     Ef "ret" ["nil"; "fmt.Errorf(""proxy [%s] is repeated"", $0)"];
     Ef "end" [];
     Ef "store" ["$recv.clientCfgs"; "$0"; "$l0"];
     Ef "ret" ["$l0.sidCh"; "nil"]
  ]);
  ("pkg/nathole/controller.go:Controller.CloseClient", [
     Ef "call" ["$recv.mu.Lock"];
     Ef "defer" [];
     Ef "call" ["$recv.mu.Unlock"];
     Ef "end" [];
     Ef "delete" ["$recv.clientCfgs"; "$0"]
  ]);
  ("server/proxy/proxy.go:BaseProxy.Close", [
     Ef "local" ["$l0"; ":="; "xlog.FromContextSafe($recv.ctx)"];
     Ef "loop" ["range"; "$recv.listeners"; "_"; "$l1"];
     Ef "call" ["$l1.Close"];
     Ef "end" []
  ]);
  ("server/proxy/stcp.go:STCPProxy.Run", [
     Ef "local" ["$l0"; ":="; "$recv.xl"];
     Ef "local" ["$l1"; ":="; "$recv.cfg.AllowUsers"];
     Ef "if" ["len($l1) == 0"];
     Ef "local" ["$l1"; "="; "[]string{$recv.GetUserInfo().User}"];
     Ef "end" [];
     Ef "local" ["$l2"; ":="; "$recv.rc.VisitorManager.Listen($recv.GetName(), $recv.cfg.Secretkey, $l1)#0"];
     Ef "local" ["$l3"; ":="; "$recv.rc.VisitorManager.Listen($recv.GetName(), $recv.cfg.Secretkey, $l1)#1"];
     Ef "if" ["$l3 != nil"];
     Ef "local" ["$r1"; "="; "$l3"];
     Ef "ret" [];
     Ef "end" [];
     Ef "assign" ["$recv.listeners"; "="; "append($recv.listeners, $l2)"];
     Ef "call" ["$recv.startCommonTCPListenersHandler"];
     Ef "ret" []
  ]);
  ("server/proxy/stcp.go:STCPProxy.Close", [
     Ef "call" ["$recv.BaseProxy.Close"];
     Ef "call" ["$recv.rc.VisitorManager.CloseListener"; "$recv.GetName()"]
  ]);
  ("server/proxy/sudp.go:SUDPProxy.Run", [
     Ef "local" ["$l0"; ":="; "$recv.xl"];
     Ef "local" ["$l1"; ":="; "$recv.cfg.AllowUsers"];
     Ef "if" ["len($l1) == 0"];
     Ef "local" ["$l1"; "="; "[]string{$recv.GetUserInfo().User}"];
     Ef "end" [];
     Ef "local" ["$l2"; ":="; "$recv.rc.VisitorManager.Listen($recv.GetName(), $recv.cfg.Secretkey, $l1)#0"];
     Ef "local" ["$l3"; ":="; "$recv.rc.VisitorManager.Listen($recv.GetName(), $recv.cfg.Secretkey, $l1)#1"];
     Ef "if" ["$l3 != nil"];
     Ef "local" ["$r1"; "="; "$l3"];
     Ef "ret" [];
     Ef "end" [];
     Ef "assign" ["$recv.listeners"; "="; "append($recv.listeners, $l2)"];
     Ef "call" ["$recv.startCommonTCPListenersHandler"];
     Ef "ret" []
  ]);
  ("server/proxy/sudp.go:SUDPProxy.Close", [
     Ef "call" ["$recv.BaseProxy.Close"];
     Ef "call" ["$recv.rc.VisitorManager.CloseListener"; "$recv.GetName()"]
  ]);
  ("server/proxy/xtcp.go:XTCPProxy.Close", [
     Ef "call" ["$recv.closeOnce.Do"; "func"];
     Ef "func" [];
     Ef "call" ["$recv.BaseProxy.Close"];
     Ef "call" ["$recv.rc.NatHoleController.CloseClient"; "$recv.GetName()"];
     Ef "call" ["close"; "$recv.closeCh"];
     Ef "end" []
  ]);
  ("server/proxy/https.go:HTTPSProxy.Close", [
     Ef "call" ["$recv.BaseProxy.Close"]
  ]);
  ("server/proxy/tcpmux.go:TCPMuxProxy.Close", [
     Ef "call" ["$recv.BaseProxy.Close"]
  ]);
  ("server/proxy/http.go:HTTPProxy.Close", [
     Ef "call" ["$recv.BaseProxy.Close"];
     Ef "loop" ["range"; "$recv.closeFuncs"; "_"; "$l0"];
     Ef "call" ["$l0"];
     Ef "end" []
  ]);
  ("server/proxy/tcp.go:TCPProxy.Close", [
     Ef "call" ["$recv.BaseProxy.Close"];
     Ef "if" ["$recv.cfg.LoadBalancer.Group == """""];
     Ef "call" ["$recv.rc.TCPPortManager.Release"; "$recv.realBindPort"];
     Ef "end" []
  ]);
  ("server/proxy/proxy.go:Manager.Add", [
     Ef "call" ["$recv.mu.Lock"];
     Ef "defer" [];
     Ef "call" ["$recv.mu.Unlock"];
     Ef "end" [];
     Ef "local" ["$l0"; ":="; "$recv.pxys[$0]#1"];
     Ef "if" ["$l0"];
     Ef "ret" ["fmt.Errorf(""proxy name [%s] is already in use"", $0)"];
     Ef "end" [];
     Ef "store" ["$recv.pxys"; "$0"; "$1"];
     Ef "ret" ["nil"]
  ]);
  ("server/proxy/proxy.go:Manager.Del", [
     Ef "call" ["$recv.mu.Lock"];
     Ef "defer" [];
     Ef "call" ["$recv.mu.Unlock"];
     Ef "end" [];
     Ef "delete" ["$recv.pxys"; "$0"]
  ]);
  ("pkg/config/v1/proxy.go:ProxyBaseConfig.UnmarshalFromMsg", [
     Ef "assign" ["$recv.Name"; "="; "$0.ProxyName"];
     Ef "assign" ["$recv.Type"; "="; "$0.ProxyType"];
     Ef "assign" ["$recv.Transport.UseEncryption"; "="; "$0.UseEncryption"];
     Ef "assign" ["$recv.Transport.UseCompression"; "="; "$0.UseCompression"];
     Ef "if" ["$0.BandwidthLimit != """""];
     Ef "assign" ["$recv.Transport.BandwidthLimit"; "="; "types.NewBandwidthQuantity($0.BandwidthLimit)#0"];
     Ef "end" [];
     Ef "if" ["$0.BandwidthLimitMode != """""];
     Ef "assign" ["$recv.Transport.BandwidthLimitMode"; "="; "$0.BandwidthLimitMode"];
     Ef "end" [];
     Ef "assign" ["$recv.LoadBalancer.Group"; "="; "$0.Group"];
     Ef "assign" ["$recv.LoadBalancer.GroupKey"; "="; "$0.GroupKey"];
     Ef "assign" ["$recv.Metadatas"; "="; "$0.Metas"];
     Ef "assign" ["$recv.Annotations"; "="; "$0.Annotations"]
  ]);
  ("pkg/util/net/conn.go:wrapQuicStream.Close", [
     Ef "call" ["$recv.Stream.CancelRead"; "0"];
     Ef "ret" ["$recv.Stream.Close()"]
  ]);
  ("pkg/util/net/conn.go:CloseNotifyConn.Close", [
     Ef "local" ["$l0"; ":="; "atomic.SwapInt32(&$recv.closeFlag, 1)"];
     Ef "if" ["$l0 == 0"];
     Ef "local" ["$r0"; "="; "$recv.Conn.Close()"];
     Ef "if" ["$recv.closeFn != nil"];
     Ef "call" ["$recv.closeFn"];
     Ef "end" [];
     Ef "end" [];
     Ef "ret" []
  ]);
  ("pkg/util/net/conn.go:StatsConn.Close", [
     Ef "local" ["$l0"; ":="; "atomic.SwapInt64(&$recv.closed, 1)"];
     Ef "if" ["$l0 != 1"];
     Ef "local" ["$r0"; "="; "$recv.Conn.Close()"];
     Ef "if" ["$recv.statsFunc != nil"];
     Ef "call" ["$recv.statsFunc"; "$recv.totalRead"; "$recv.totalWrite"];
     Ef "end" [];
     Ef "end" [];
     Ef "ret" []
  ])
].
