(* C18 — "the rendered bytes a load parses are its own document", for every schedule of loads in one
   process.  config.LoadConfigureFromFile = RenderWithTemplate (template output into a buffer, returns
   buffer.Bytes()) followed by LoadConfigure on those bytes.  Whether the bytes stay the load's own depends
   on where the buffer comes from; that is DERIVED from today's source (gen/GenLoadShape.v: render_events)
   by [ro_mode_of].  Model only: no proofs here. *)
From FRP Require Export Model.StrictLoad.
Open Scope Z_scope.

Inductive ro_mode :=
| RoOwned      (* a buffer created by the call (or a copy of its bytes) is returned: nobody else writes it *)
| RoShared.    (* the returned slice aliases a buffer that is handed to other calls (pool, package variable) *)

Fixpoint ro_prefix (p s : string) : bool :=
  match p, s with
  | EmptyString, _ => true
  | String a p', String b s' => Ascii.eqb a b && ro_prefix p' s'
  | _, _ => false
  end.

Definition ro_after (p s : string) : string := String.substring (String.length p) (String.length s - String.length p) s.

(* owned iff: no buffer comes from elsewhere, nothing is Put anywhere, there is a return, and every return
   hands out the bytes of a buffer created in the call, or a copy *)
Definition ro_mode_of (ev : list string) : ro_mode :=
  let fresh := map (ro_after "Buffer:fresh:") (filter (ro_prefix "Buffer:fresh:") ev) in
  if existsb (ro_prefix "Buffer:shared:") ev || existsb (String.eqb "Put") ev || existsb (String.eqb "DeferPut") ev then RoShared
  else if negb (existsb (ro_prefix "Return:") ev) then RoShared
  else if forallb (fun e => if ro_prefix "Return:" e
                            then String.eqb e "Return:copy" ||
                                 (ro_prefix "Return:Bytes:" e && existsb (String.eqb (ro_after "Return:Bytes:" e)) fresh)
                            else true) ev
       then RoOwned else RoShared.

(* ---- schedule model ---- *)
Inductive ro_slice := RoNone | RoOwn (doc : nat) | RoAlias.   (* what the load holds after rendering *)
Inductive ro_act := RRender | RParse.

Record ro_thread := mk_ro_thread { ro_doc : nat; ro_todo : list ro_act; ro_sl : ro_slice; ro_parsed : option nat }.

Record ro_state := mk_ro_state {
  ro_shared : nat;               (* content (document id) of the buffer that is handed around *)
  ro_ths : list ro_thread
}.

Definition ro_step (mode : ro_mode) (tid : nat) (s : ro_state) : ro_state :=
  match nth_error (ro_ths s) tid with
  | None => s
  | Some t =>
      match ro_todo t with
      | [] => s
      | RRender :: rest =>
          match mode with
          | RoOwned => mk_ro_state (ro_shared s) (sl_upd tid (mk_ro_thread (ro_doc t) rest (RoOwn (ro_doc t)) (ro_parsed t)) (ro_ths s))
          | RoShared =>
              (* Get, Reset, Execute writes this load's document, Put: the slice keeps pointing into the buffer *)
              mk_ro_state (ro_doc t) (sl_upd tid (mk_ro_thread (ro_doc t) rest RoAlias (ro_parsed t)) (ro_ths s))
          end
      | RParse :: rest =>
          let seen := match ro_sl t with RoOwn d => Some d | RoAlias => Some (ro_shared s) | RoNone => None end in
          mk_ro_state (ro_shared s) (sl_upd tid (mk_ro_thread (ro_doc t) rest (ro_sl t) seen) (ro_ths s))
      end
  end.

Definition ro_init (docs : list nat) : ro_state :=
  mk_ro_state 0 (map (fun d => mk_ro_thread d [RRender; RParse] RoNone None) docs).

Definition ro_run (mode : ro_mode) (sched : list nat) (s : ro_state) : ro_state :=
  fold_left (fun st tid => ro_step mode tid st) sched s.

(* ---- every typed level reads the switch ---- *)
(* each UnmarshalJSON method of package v1 (gen: typed_unmarshalers) is among the readers of the strict
   switch (gen: switch_uses): no typed level of a document decodes without consulting it *)
Definition sl_typed_levels_ok (typed switch_uses : list (string * string * string)) : bool :=
  match typed with [] => false | _ => true end &&
  forallb (fun t : string * string * string =>
             let '(file, fn, _) := t in
             existsb (fun u : string * string * string =>
                        let '(f2, fn2, kind) := u in String.eqb f2 file && String.eqb fn2 fn && String.eqb kind "read") switch_uses)
          typed.
